//! C10 runner: layout and comments never change the parse.
//! Input lines: `<mode> <hex of UTF-8 source>`; modes
//!   lex      -> `L T k a b;...|E code a b x y;...`   token classes / error classes with byte spans
//!               (class codes as in coq/Lex/Chars.v; `P <msg>` if the lexer panicked)
//!   ast      -> `OK <hash> <len>` span-erased Debug of the AST from the real parser, hashed,
//!               `ERR lex <n>` / `ERR parse <n>` when the source is rejected, `PANIC <msg>`
//!   astfull  -> `OK <span-erased Debug text>` (for replays)
use crate::common::{catch, each_line};
use incan_syntax::lexer::{self, TokenKind};
use incan_syntax::parser;
use incan_core::lang::punctuation::PunctuationId;
use std::collections::hash_map::DefaultHasher;
use std::hash::{Hash, Hasher};

pub fn unhex(h: &str) -> Option<String> {
    let b = h.as_bytes();
    if b.len() % 2 != 0 {
        return None;
    }
    let mut out = Vec::with_capacity(b.len() / 2);
    for i in (0..b.len()).step_by(2) {
        let v = u8::from_str_radix(std::str::from_utf8(&b[i..i + 2]).ok()?, 16).ok()?;
        out.push(v);
    }
    String::from_utf8(out).ok()
}

pub fn kind_code(k: &TokenKind) -> u32 {
    match k {
        TokenKind::Newline => 1,
        TokenKind::Indent => 2,
        TokenKind::Dedent => 3,
        TokenKind::Eof => 4,
        TokenKind::Punctuation(PunctuationId::LParen)
        | TokenKind::Punctuation(PunctuationId::LBracket)
        | TokenKind::Punctuation(PunctuationId::LBrace) => 5,
        TokenKind::Punctuation(PunctuationId::RParen)
        | TokenKind::Punctuation(PunctuationId::RBracket)
        | TokenKind::Punctuation(PunctuationId::RBrace) => 6,
        TokenKind::String(_) => 7,
        TokenKind::Keyword(_) | TokenKind::Ident(_) => 8,
        TokenKind::Operator(_) | TokenKind::Punctuation(_) | TokenKind::Ellipsis => 9,
        TokenKind::Bytes(_) => 17,
        TokenKind::FString(_) => 18,
        TokenKind::Int(_) => 30,
        TokenKind::Float(_) => 31,
    }
}

/// (code, x, y) for a lexer error message; code 99 = a message this classifier does not know.
pub fn err_code(msg: &str) -> (u32, u64, u64) {
    if msg.starts_with("Unexpected character") {
        (1, 0, 0)
    } else if msg == "Unmatched closing bracket" {
        (2, 0, 0)
    } else if let Some(rest) = msg.strip_prefix("Inconsistent indentation: expected ") {
        // "expected {} spaces, got {}"
        let mut it = rest.split(" spaces, got ");
        let a = it.next().and_then(|s| s.parse().ok()).unwrap_or(u64::MAX);
        let b = it.next().and_then(|s| s.parse().ok()).unwrap_or(u64::MAX);
        (3, a, b)
    } else if msg == "Unterminated string" {
        (4, 0, 0)
    } else if msg == "Unterminated string (newline in single-quoted string)" {
        (5, 0, 0)
    } else if msg == "Unterminated escape sequence" {
        (6, 0, 0)
    } else if msg == "Unterminated byte string" {
        (7, 0, 0)
    } else if msg == "Unterminated byte string (newline in string)" {
        (8, 0, 0)
    } else if msg.starts_with("Invalid hex escape") {
        (9, 0, 0)
    } else if msg.starts_with("Non-ASCII character in byte string") {
        (10, 0, 0)
    } else if msg == "Unterminated f-string" {
        (11, 0, 0)
    } else if msg == "Unmatched '}' in f-string" {
        (12, 0, 0)
    } else if msg == "Unterminated escape in f-string" {
        (13, 0, 0)
    } else if msg.starts_with("Invalid float literal") {
        (14, 0, 0)
    } else if msg.starts_with("Invalid integer literal") {
        (15, 0, 0)
    } else {
        (99, 0, 0)
    }
}

pub fn lex_line(src: &str) -> String {
    match catch(|| lexer::lex(src)) {
        Err(p) => format!("P {:?}", p),   // Debug: no raw CR/LF from the echoed source in the line protocol
        Ok(Ok(toks)) => {
            let t: Vec<String> = toks
                .iter()
                .map(|t| format!("T {} {} {}", kind_code(&t.kind), t.span.start, t.span.end))
                .collect();
            format!("L {}|", t.join(";"))
        }
        Ok(Err(errs)) => {
            let e: Vec<String> = errs
                .iter()
                .map(|e| {
                    let (c, x, y) = err_code(&e.message);
                    format!("E {} {} {} {} {}", c, e.span.start, e.span.end, x, y)
                })
                .collect();
            format!("L |{}", e.join(";"))
        }
    }
}

/// Remove every `Span { start: N, end: M }` from a Debug rendering.
pub fn erase_spans(s: &str) -> String {
    let pat = "Span { start: ";
    let mut out = String::with_capacity(s.len());
    let mut rest = s;
    while let Some(i) = rest.find(pat) {
        out.push_str(&rest[..i]);
        let after = &rest[i + pat.len()..];
        // digits ", end: " digits " }"
        let d1 = after.bytes().take_while(|b| b.is_ascii_digit()).count();
        let a2 = &after[d1..];
        if d1 > 0 && a2.starts_with(", end: ") {
            let a3 = &a2[7..];
            let d2 = a3.bytes().take_while(|b| b.is_ascii_digit()).count();
            let a4 = &a3[d2..];
            if d2 > 0 && a4.starts_with(" }") {
                out.push('_');
                rest = &a4[2..];
                continue;
            }
        }
        out.push_str(pat);
        rest = after;
    }
    out.push_str(rest);
    out
}

pub fn ast_text(src: &str) -> Result<String, String> {
    let toks = match lexer::lex(src) {
        Ok(t) => t,
        Err(es) => return Err(format!("ERR lex {}", es.len())),
    };
    match parser::parse(&toks) {
        Ok(p) => Ok(erase_spans(&format!("{:?}", p))),
        Err(es) => Err(format!("ERR parse {}", es.len())),
    }
}

/// Token classes of the real lexer, or the error classes when it rejects; None if it panicked.
fn kinds(src: &str) -> Option<Result<Vec<u32>, Vec<u32>>> {
    match catch(|| lexer::lex(src)) {
        Err(_) => None,
        Ok(Ok(t)) => Some(Ok(t.iter().map(|t| kind_code(&t.kind)).collect())),
        Ok(Err(e)) => Some(Err(e.iter().map(|e| err_code(&e.message).0).collect())),
    }
}

/// Drop a Newline that stands immediately before the closing `Dedent* Eof` (the relation ~ of C10).
fn norm(mut k: Vec<u32>) -> Vec<u32> {
    let mut i = k.len();
    if i > 0 && k[i - 1] == 4 {
        i -= 1;
        while i > 0 && k[i - 1] == 3 {
            i -= 1;
        }
        if i > 0 && k[i - 1] == 1 {
            k.remove(i - 1);
        }
    }
    k
}

fn map_lines(s: &str, f: impl Fn(&str) -> String) -> String {
    let parts: Vec<String> = s.split('\n').map(|l| f(l)).collect();
    parts.join("\n")
}

/// The eight layout edits of DESIGN section 13 applied to a string without string literals.
fn exh_variants(s: &str) -> Vec<(&'static str, String)> {
    let mut v = Vec::new();
    v.push(("final-newline", format!("{}\n", s)));
    v.push(("crlf", s.replace('\n', "\r\n")));
    v.push(("trailing-blanks", map_lines(s, |l| format!("{} \t", l))));
    v.push(("eol-comment", map_lines(s, |l| format!("{}# c(", l))));
    v.push(("blank-lines", s.replace('\n', "\n \t\r\n\n")));
    v.push(("comment-lines", s.replace('\n', "\n  # c)\n")));
    v.push((
        "double-indent",
        map_lines(s, |l| {
            let n = l.bytes().take_while(|b| *b == b' ' || *b == b'\t' || *b == b'\r').count();
            format!("{}{}", &l[..n], l)
        }),
    ));
    // newline + blanks after every real '(' (found through the real token spans)
    if let Ok(Ok(toks)) = catch(|| lexer::lex(s)) {
        let mut out = String::new();
        let mut last = 0usize;
        for t in &toks {
            if kind_code(&t.kind) == 5 {
                out.push_str(&s[last..t.span.end]);
                out.push_str("\n \t ");
                last = t.span.end;
            }
        }
        out.push_str(&s[last..]);
        v.push(("newline-after-open", out));
    }
    v
}

/// Enumerate every string of length <= maxlen over `a SP TAB LF CR # ( ) :` and compare the token
/// classes of every layout variant with those of the original (modulo the optional final Newline).
fn exhaustive(maxlen: usize) -> String {
    const ALPHA: [char; 9] = ['a', ' ', '\t', '\n', '\r', '#', '(', ')', ':'];
    let (mut n, mut lexed, mut variants) = (0u64, 0u64, 0u64);
    let mut bad: Vec<String> = Vec::new();
    let mut idx: Vec<usize> = Vec::new();
    loop {
        let s: String = idx.iter().map(|i| ALPHA[*i]).collect();
        n += 1;
        match kinds(&s) {
            None => bad.push(format!("panic {:?}", s)),
            Some(base) => {
                if base.is_ok() {
                    lexed += 1;
                }
                let nb = base.clone().map(norm);
                for (name, v) in exh_variants(&s) {
                    variants += 1;
                    let got = kinds(&v).map(|r| r.map(norm));
                    if got != Some(nb.clone()) && bad.len() < 20 {
                        bad.push(format!("{} {:?} -> {:?}: {:?} vs {:?}", name, s, v, base, got));
                    }
                }
            }
        }
        // next string
        let mut i = idx.len();
        loop {
            if i == 0 {
                idx.insert(0, 0);
                for j in idx.iter_mut() {
                    *j = 0;
                }
                break;
            }
            i -= 1;
            if idx[i] + 1 < ALPHA.len() {
                idx[i] += 1;
                for j in idx[i + 1..].iter_mut() {
                    *j = 0;
                }
                break;
            }
        }
        if idx.len() > maxlen {
            break;
        }
    }
    format!("EXH strings={} lexed={} variants={} violations={} {}", n, lexed, variants, bad.len(), bad.join(" ;; "))
}

pub fn run(_args: &[String]) {
    each_line(|line| {
        let mut it = line.splitn(2, ' ');
        let mode = it.next().unwrap_or("");
        if mode == "exh" {
            let n: usize = it.next().and_then(|s| s.trim().parse().ok()).unwrap_or(4);
            return exhaustive(n);
        }
        let Some(src) = unhex(it.next().unwrap_or("")) else {
            return "BADINPUT".to_string();
        };
        match mode {
            "lex" => lex_line(&src),
            "ast" | "astfull" => match catch(|| ast_text(&src)) {
                Err(p) => format!("PANIC {:?}", p),
                Ok(Err(e)) => e,
                Ok(Ok(text)) => {
                    if mode == "astfull" {
                        format!("OK {}", text)
                    } else {
                        let mut h = DefaultHasher::new();
                        text.hash(&mut h);
                        format!("OK {:016x} {}", h.finish(), text.len())
                    }
                }
            },
            _ => "BADMODE".to_string(),
        }
    });
}
