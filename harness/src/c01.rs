//! C01/C02 runner: drives the real front end, lowering, emission and the real `incan build` path.
//!
//! `vharness run c01 emit`  — each stdin line is one Incan program (newlines written as `\n`).
//!   Output: one JSON object per program:
//!   `{"parse": "ok"|msg, "ast": {fn: sexp}, "check": [messages], "gen": "ok"|"typecheck"|"lowering: .."|
//!     "emission: ..", "syn": bool, "fns": {name: [tokens of the body]}}`
//!   The pipeline is the library one: lexer::lex -> parser::parse -> TypeChecker::check_program ->
//!   IrCodegen::try_generate (which re-checks, lowers and emits) — exactly what `incan --check` /
//!   `--emit-rust` / `build` run for a single file.
//! `vharness run c01 build` — each stdin line is `<dir>\t<stem>`: chdir to <dir> and call the real
//!   `incan::cli::commands::build_file("<stem>.incn", Some("out_<stem>"))` (checker, codegen, project
//!   generation, `cargo build --release`).  Output `@@ <stem> ok` or `@@ <stem> fail <message>`.
use crate::common::{catch, each_line};
use incan::frontend::ast::{
    BinaryOp, BindingKind, CallArg, CompoundOp, Declaration, Expr, Literal, Spanned, Statement, Type, UnaryOp,
};
use proc_macro2::{Delimiter, Spacing, TokenStream, TokenTree};
use serde_json::{json, Map, Value};
use std::str::FromStr;

fn ty_s(t: &Type) -> String {
    match t {
        Type::Simple(n) => n.clone(),
        Type::Unit => "None".to_string(),
        other => format!("{:?}", other).replace(' ', ""),
    }
}

fn expr_s(e: &Spanned<Expr>) -> String {
    match &e.node {
        Expr::Literal(Literal::Int(n)) => format!("(i {})", n),
        Expr::Literal(Literal::Float(f)) => format!("(f {})", f.to_bits()),
        Expr::Literal(Literal::Bool(b)) => format!("(b {})", b),
        Expr::Ident(n) => format!("(v {})", n),
        Expr::Paren(i) => format!("(p {})", expr_s(i)),
        Expr::Unary(UnaryOp::Neg, i) => format!("(u neg {})", expr_s(i)),
        Expr::Unary(UnaryOp::Not, i) => format!("(u not {})", expr_s(i)),
        Expr::Binary(l, op, r) => {
            let o: BinaryOp = *op;
            format!("(o {} {} {})", format!("{}", o).replace(' ', "_"), expr_s(l), expr_s(r))
        }
        Expr::Call(f, args) => {
            let mut s = format!("(c {}", expr_s(f));
            for a in args {
                match a {
                    CallArg::Positional(x) => {
                        s.push(' ');
                        s.push_str(&expr_s(x));
                    }
                    CallArg::Named(n, x) => {
                        s.push_str(&format!(" (named {} {})", n, expr_s(x)));
                    }
                }
            }
            s.push(')');
            s
        }
        other => {
            let d = format!("{:?}", other);
            let head: String = d.chars().take_while(|c| c.is_alphanumeric()).collect();
            format!("(? {})", head)
        }
    }
}

fn block_s(b: &[Spanned<Statement>]) -> String {
    let parts: Vec<String> = b.iter().map(stmt_s).collect();
    format!("({})", parts.join(" "))
}

fn stmt_s(s: &Spanned<Statement>) -> String {
    match &s.node {
        Statement::Assignment(a) => {
            let k = match a.binding {
                BindingKind::Inferred => "inferred",
                BindingKind::Let => "let",
                BindingKind::Mutable => "mut",
                BindingKind::Reassign => "reassign",
            };
            let t = a.ty.as_ref().map(|t| ty_s(&t.node)).unwrap_or_else(|| "_".to_string());
            format!("(= {} {} {} {})", k, a.name, t, expr_s(&a.value))
        }
        Statement::CompoundAssignment(c) => {
            let o = match c.op {
                CompoundOp::Add => "+",
                CompoundOp::Sub => "-",
                CompoundOp::Mul => "*",
                CompoundOp::Div => "/",
                CompoundOp::FloorDiv => "//",
                CompoundOp::Mod => "%",
            };
            format!("(op= {} {} {})", o, c.name, expr_s(&c.value))
        }
        Statement::If(i) => {
            let elifs: Vec<String> = i
                .elif_branches
                .iter()
                .map(|(c, b)| format!("(elif {} {})", expr_s(c), block_s(b)))
                .collect();
            let el = i.else_body.as_ref().map(|b| format!("(else {})", block_s(b))).unwrap_or_else(|| "_".to_string());
            format!("(if {} {} ({}) {})", expr_s(&i.condition), block_s(&i.then_body), elifs.join(" "), el)
        }
        Statement::While(w) => format!("(while {} {})", expr_s(&w.condition), block_s(&w.body)),
        Statement::For(f) => format!("(for {} {} {})", f.var, expr_s(&f.iter), block_s(&f.body)),
        Statement::Expr(e) => format!("(e {})", expr_s(e)),
        Statement::Return(Some(e)) => format!("(ret {})", expr_s(e)),
        Statement::Return(None) => "(ret)".to_string(),
        Statement::Pass => "pass".to_string(),
        Statement::Break => "break".to_string(),
        Statement::Continue => "continue".to_string(),
        other => {
            let d = format!("{:?}", other);
            let head: String = d.chars().take_while(|c| c.is_alphanumeric()).collect();
            format!("(? {})", head)
        }
    }
}

/// Flatten a token stream to canonical token strings (joint punctuation merged, groups as
/// explicit open/close tokens).
fn flat(ts: TokenStream, out: &mut Vec<String>) {
    let mut pending = String::new();
    for t in ts {
        match t {
            TokenTree::Punct(p) => {
                pending.push(p.as_char());
                if p.spacing() == Spacing::Alone {
                    out.push(std::mem::take(&mut pending));
                }
            }
            other => {
                if !pending.is_empty() {
                    out.push(std::mem::take(&mut pending));
                }
                match other {
                    TokenTree::Group(g) => {
                        let (o, c) = match g.delimiter() {
                            Delimiter::Parenthesis => ("(", ")"),
                            Delimiter::Brace => ("{", "}"),
                            Delimiter::Bracket => ("[", "]"),
                            Delimiter::None => ("", ""),
                        };
                        if !o.is_empty() {
                            out.push(o.to_string());
                        }
                        flat(g.stream(), out);
                        if !c.is_empty() {
                            out.push(c.to_string());
                        }
                    }
                    TokenTree::Ident(i) => out.push(i.to_string()),
                    TokenTree::Literal(l) => out.push(l.to_string()),
                    TokenTree::Punct(_) => unreachable!(),
                }
            }
        }
    }
    if !pending.is_empty() {
        out.push(pending);
    }
}

/// name -> flat tokens of the body, for every top-level `fn` of the generated file.
fn fn_bodies(code: &str) -> Result<Map<String, Value>, String> {
    let ts = TokenStream::from_str(code).map_err(|e| format!("tokenize: {}", e))?;
    let toks: Vec<TokenTree> = ts.into_iter().collect();
    let mut m = Map::new();
    let mut i = 0;
    while i < toks.len() {
        if let TokenTree::Ident(id) = &toks[i] {
            if id == "fn" {
                if let Some(TokenTree::Ident(name)) = toks.get(i + 1) {
                    let mut j = i + 2;
                    let mut sig: Vec<String> = Vec::new();
                    while j < toks.len() {
                        if let TokenTree::Group(g) = &toks[j] {
                            if g.delimiter() == Delimiter::Brace {
                                let mut body = Vec::new();
                                flat(g.stream(), &mut body);
                                m.insert(name.to_string(), json!({"sig": sig, "body": body}));
                                break;
                            }
                        }
                        let mut one = Vec::new();
                        flat(std::iter::once(toks[j].clone()).collect(), &mut one);
                        sig.extend(one);
                        j += 1;
                    }
                    i = j;
                }
            }
        }
        i += 1;
    }
    Ok(m)
}

pub fn emit_one(src: &str) -> Value {
    let mut o = Map::new();
    let toks = match incan::lexer::lex(src) {
        Ok(t) => t,
        Err(es) => {
            o.insert("parse".into(), json!(format!("lex: {}", es.first().map(|e| e.message.clone()).unwrap_or_default())));
            return Value::Object(o);
        }
    };
    let ast = match incan::parser::parse(&toks) {
        Ok(a) => a,
        Err(es) => {
            o.insert("parse".into(), json!(format!("parse: {}", es.first().map(|e| e.message.clone()).unwrap_or_default())));
            return Value::Object(o);
        }
    };
    o.insert("parse".into(), json!("ok"));
    let mut asts = Map::new();
    for d in &ast.declarations {
        if let Declaration::Function(f) = &d.node {
            let ps: Vec<String> = f.params.iter().map(|p| format!("{}:{}", p.node.name, ty_s(&p.node.ty.node))).collect();
            asts.insert(
                f.name.clone(),
                json!(format!("(fn ({}) {} {})", ps.join(" "), ty_s(&f.return_type.node), block_s(&f.body))),
            );
        }
    }
    o.insert("ast".into(), Value::Object(asts));
    let mut tc = incan::typechecker::TypeChecker::new();
    let errs: Vec<String> = match tc.check_program(&ast) {
        Ok(()) => vec![],
        Err(es) => es.iter().map(|e| e.message.clone()).collect(),
    };
    o.insert("check".into(), json!(errs));
    let gen = incan::IrCodegen::new().try_generate(&ast);
    match gen {
        Ok(code) => {
            o.insert("gen".into(), json!("ok"));
            o.insert("syn".into(), json!(syn::parse_file(&code).is_ok()));
            match fn_bodies(&code) {
                Ok(m) => {
                    o.insert("fns".into(), Value::Object(m));
                }
                Err(e) => {
                    o.insert("fns_error".into(), json!(e));
                }
            }
        }
        Err(e) => {
            let s = match &e {
                incan::backend::ir::codegen::GenerationError::TypeCheck(_) => "typecheck".to_string(),
                incan::backend::ir::codegen::GenerationError::Lowering(l) => format!("lowering: {}", l),
                incan::backend::ir::codegen::GenerationError::Emission(m) => format!("emission: {}", m),
            };
            o.insert("gen".into(), json!(s));
        }
    }
    Value::Object(o)
}

pub fn run(args: &[String]) {
    let mode = args.first().map(|s| s.as_str()).unwrap_or("emit");
    match mode {
        "emit" => each_line(|line| {
            let src = line.replace("\\n", "\n");
            match catch(|| emit_one(&src)) {
                Ok(v) => v.to_string(),
                Err(p) => json!({"panic": p}).to_string(),
            }
        }),
        "build" => each_line(|line| {
            let mut it = line.split('\t');
            let dir = it.next().unwrap_or("").to_string();
            let stem = it.next().unwrap_or("").to_string();
            if std::env::set_current_dir(&dir).is_err() {
                return format!("@@ {} fail cannot chdir to {}", stem, dir);
            }
            let file = format!("{}.incn", stem);
            let out = format!("out_{}", stem);
            let r = catch(|| incan::cli::commands::build_file(&file, Some(&out)));
            match r {
                Ok(Ok(code)) if code.0 == 0 => format!("@@ {} ok", stem),
                Ok(Ok(code)) => format!("@@ {} fail exit code {}", stem, code.0),
                Ok(Err(e)) => format!("@@ {} fail {}", stem, e.message),
                Err(p) => format!("@@ {} fail panic: {}", stem, p),
            }
        }),
        // `vharness run c01 check` — each stdin line is `<dir>\t<file>`: chdir to <dir> and call the real
        // `incan::cli::commands::check_file("<file>")` (multi-file: imports are collected and checked as `incan --check` does).
        "check" => each_line(|line| {
            let mut it = line.split('\t');
            let dir = it.next().unwrap_or("").to_string();
            let file = it.next().unwrap_or("").to_string();
            if std::env::set_current_dir(&dir).is_err() {
                return format!("@@ {} fail cannot chdir to {}", file, dir);
            }
            match catch(|| incan::cli::commands::check_file(&file)) {
                Ok(Ok(code)) if code.0 == 0 => format!("@@ {} ok", file),
                Ok(Ok(code)) => format!("@@ {} fail exit code {}", file, code.0),
                Ok(Err(e)) => format!("@@ {} fail {}", file, e.message.replace('\n', "\\n")),
                Err(p) => format!("@@ {} fail panic: {}", file, p),
            }
        }),
        other => {
            eprintln!("c01: unknown mode {}", other);
            std::process::exit(2);
        }
    }
}
