//! C06: run the REAL const evaluator (lexer + parser + TypeChecker::check_program) and the REAL
//! const emission (IrCodegen::try_generate) on a program.
//!
//! Input: one JSON object per line: `{"src": "<source>", "emit": true|false}`.
//! Output: one JSON object per line:
//!   `{"parse":"ok",
//!     "consts":[{"name":n,"ty":<type>|null,"kind":"native"|"frozen"|null,"value":[tag,payload]|null},...],
//!     "errors":[[kind,message],...],
//!     "emit":{"ok":[{"name":n,"ty":"<rust type tokens>","init":<rexpr>},...]} | {"err":"<message>"} | null}`
//!   `{"parse":"lex"|"parse","errors":[...]}`  /  `{"parse":"panic","message":...}`
//! `<type>`: "int" | "float" | ... | ["tuple", t...] | ["flist", t] | ["fset", t] | ["fdict", k, v] | ["other", text].
//! `consts[i].ty` is the type recorded for the root initializer span (TypeCheckInfo.expr_types);
//! `kind`/`value` come from TypeCheckInfo.const_kinds / const_values.
//! `<rexpr>`: the emitted Rust initializer as a small tree (see `rexpr`).
//! With `"project": "<dir>", "name": "<crate>"` the generated cargo project is written to <dir>
//! (IrCodegen::try_generate + ProjectGenerator::generate, as `incan build` does) and the reply is
//! `{"parse":"ok","project":"written"|"<error>"}`; the check builds and runs it with real cargo.
use crate::common::{catch, each_line};
use incan::frontend::ast::*;
use incan::frontend::diagnostics::CompileError;
use incan::frontend::symbols::ResolvedType;
use incan::frontend::{lexer, parser, typechecker};
use serde_json::{json, Value};

fn ty_json(t: &ResolvedType) -> Value {
    match t {
        ResolvedType::Int => json!("int"),
        ResolvedType::Float => json!("float"),
        ResolvedType::Bool => json!("bool"),
        ResolvedType::Str => json!("str"),
        ResolvedType::Bytes => json!("bytes"),
        ResolvedType::FrozenStr => json!("fstr"),
        ResolvedType::FrozenBytes => json!("fbytes"),
        ResolvedType::Unknown => json!("unknown"),
        ResolvedType::FrozenList(e) => json!(["flist", ty_json(e)]),
        ResolvedType::FrozenSet(e) => json!(["fset", ty_json(e)]),
        ResolvedType::FrozenDict(k, v) => json!(["fdict", ty_json(k), ty_json(v)]),
        ResolvedType::Tuple(items) => {
            let mut v = vec![json!("tuple")];
            v.extend(items.iter().map(ty_json));
            Value::Array(v)
        }
        other => json!(["other", other.to_string()]),
    }
}

/// `ConstValue`/`ConstKind` live in a private module: they are read through their `Debug` form
/// (`Int(7)`, `Float(1.5)`, `Bool(true)`, `FrozenStr("a\\n")`, `FrozenBytes([1, 2])`).
fn unescape_debug(s: &str) -> Vec<u32> {
    let cs: Vec<char> = s.chars().collect();
    let mut out = vec![];
    let mut i = 0;
    while i < cs.len() {
        if cs[i] != '\\' {
            out.push(cs[i] as u32);
            i += 1;
            continue;
        }
        i += 1;
        match cs[i] {
            'n' => out.push(10),
            'r' => out.push(13),
            't' => out.push(9),
            '0' => out.push(0),
            'u' => {
                // \u{hex}
                let mut j = i + 2;
                let mut v = 0u32;
                while cs[j] != '}' {
                    v = v * 16 + cs[j].to_digit(16).expect("hex");
                    j += 1;
                }
                out.push(v);
                i = j;
            }
            c => out.push(c as u32),
        }
        i += 1;
    }
    out
}

fn val_json<T: std::fmt::Debug>(v: &T) -> Value {
    let d = format!("{:?}", v);
    let inner = |pre: &str| d[pre.len() + 1..d.len() - 1].to_string();
    if d.starts_with("Int(") {
        json!(["int", inner("Int")])
    } else if d.starts_with("Float(") {
        let f: f64 = inner("Float").parse().expect("float debug");
        json!(["float", f.to_bits().to_string()])
    } else if d.starts_with("Bool(") {
        json!(["bool", inner("Bool") == "true"])
    } else if d.starts_with("FrozenStr(") {
        let q = inner("FrozenStr");
        json!(["str", unescape_debug(&q[1..q.len() - 1])])
    } else if d.starts_with("FrozenBytes(") {
        let q = inner("FrozenBytes");
        let bytes: Vec<u32> = q[1..q.len() - 1].split(',').filter(|x| !x.trim().is_empty()).map(|x| x.trim().parse().expect("byte")).collect();
        json!(["bytes", bytes])
    } else {
        json!(["other", d])
    }
}

/// the parsed initializer as an S-expression, so the check can confirm that the text it printed
/// parses to the tree it meant
fn sx(e: &Spanned<Expr>) -> String {
    let cps = |s: &str| s.chars().map(|c| (c as u32).to_string()).collect::<Vec<_>>().join(",");
    let many = |tag: &str, items: &[Spanned<Expr>]| {
        let mut o = format!("({}", tag);
        for i in items {
            o.push(' ');
            o.push_str(&sx(i));
        }
        o.push(')');
        o
    };
    match &e.node {
        Expr::Literal(Literal::Int(n)) => format!("i{}", n),
        Expr::Literal(Literal::Float(f)) => format!("f{}", f.to_bits()),
        Expr::Literal(Literal::Bool(b)) => format!("b{}", if *b { 1 } else { 0 }),
        Expr::Literal(Literal::String(s)) => format!("s[{}]", cps(s)),
        Expr::Literal(Literal::Bytes(b)) => format!("y[{}]", b.iter().map(|x| x.to_string()).collect::<Vec<_>>().join(",")),
        Expr::Literal(Literal::None) => "none".to_string(),
        Expr::Ident(n) => format!("@{}", n),
        Expr::Unary(UnaryOp::Neg, x) => format!("(neg {})", sx(x)),
        Expr::Unary(UnaryOp::Not, x) => format!("(not {})", sx(x)),
        Expr::Binary(l, op, r) => format!("({} {} {})", op.to_string().replace(' ', "_"), sx(l), sx(r)),
        Expr::Tuple(items) => many("tuple", items),
        Expr::List(items) => many("list", items),
        Expr::Set(items) => many("set", items),
        Expr::Dict(pairs) => {
            let mut o = "(dict".to_string();
            for (k, v) in pairs {
                o.push(' ');
                o.push_str(&sx(k));
                o.push(' ');
                o.push_str(&sx(v));
            }
            o.push(')');
            o
        }
        Expr::Index(b, i) => format!("(index {} {})", sx(b), sx(i)),
        Expr::Slice(b, sl) => {
            let opt = |o: &Option<Box<Spanned<Expr>>>| o.as_ref().map(|x| sx(x)).unwrap_or_else(|| "_".to_string());
            format!("(slice {} {} {} {})", sx(b), opt(&sl.start), opt(&sl.end), opt(&sl.step))
        }
        Expr::Paren(_) => "(paren)".to_string(),
        Expr::Call(_, _) => "(call)".to_string(),
        Expr::SelfExpr => "self".to_string(),
        _ => "(other)".to_string(),
    }
}

fn errs(v: &[CompileError]) -> Vec<Value> {
    v.iter().map(|e| json!([e.kind.to_string(), e.message])).collect()
}

// ---- emitted Rust: const items as small expression trees ------------------------------------

fn toks<T: quote::ToTokens>(t: &T) -> String {
    t.to_token_stream().to_string()
}

fn rexpr(e: &syn::Expr) -> Value {
    use syn::Expr as E;
    match e {
        E::Lit(l) => match &l.lit {
            syn::Lit::Int(i) => json!(["int", i.base10_digits(), i.suffix()]),
            syn::Lit::Float(f) => json!(["float", f.base10_digits(), f.suffix()]),
            syn::Lit::Bool(b) => json!(["bool", b.value]),
            syn::Lit::Str(s) => json!(["str", s.value().chars().map(|c| c as u32).collect::<Vec<u32>>()]),
            syn::Lit::ByteStr(b) => json!(["bytes", b.value()]),
            other => json!(["other", toks(other)]),
        },
        E::Paren(p) => json!(["paren", rexpr(&p.expr)]),
        E::Group(g) => rexpr(&g.expr),
        E::Unary(u) => json!(["un", toks(&u.op), rexpr(&u.expr)]),
        E::Binary(b) => json!(["bin", toks(&b.op), rexpr(&b.left), rexpr(&b.right)]),
        E::Cast(c) => json!(["cast", rexpr(&c.expr), toks(&c.ty)]),
        E::Path(p) => json!(["path", toks(&p.path).replace(' ', "")]),
        E::Tuple(t) => {
            let mut v = vec![json!("tuple")];
            v.extend(t.elems.iter().map(rexpr));
            Value::Array(v)
        }
        E::Array(a) => {
            let mut v = vec![json!("array")];
            v.extend(a.elems.iter().map(rexpr));
            Value::Array(v)
        }
        E::Reference(r) => json!(["ref", rexpr(&r.expr)]),
        E::Call(c) => {
            let mut v = vec![json!("call"), rexpr(&c.func)];
            v.extend(c.args.iter().map(rexpr));
            Value::Array(v)
        }
        E::MethodCall(m) => {
            let mut v = vec![json!("mcall"), json!(m.method.to_string()), rexpr(&m.receiver)];
            v.extend(m.args.iter().map(rexpr));
            Value::Array(v)
        }
        E::Macro(m) => {
            let name = toks(&m.mac.path).replace(' ', "");
            let args: Result<syn::punctuated::Punctuated<syn::Expr, syn::Token![,]>, _> =
                m.mac.parse_body_with(syn::punctuated::Punctuated::parse_terminated);
            match args {
                Ok(a) => {
                    let mut v = vec![json!("macro"), json!(name)];
                    v.extend(a.iter().map(rexpr));
                    Value::Array(v)
                }
                Err(_) => json!(["other", toks(e)]),
            }
        }
        other => json!(["other", toks(other)]),
    }
}

fn emitted_consts(rust: &str) -> Value {
    match syn::parse_file(rust) {
        Err(e) => json!({"err": format!("emitted Rust does not parse: {}", e)}),
        Ok(f) => {
            let mut out = vec![];
            for it in &f.items {
                if let syn::Item::Const(c) = it {
                    out.push(json!({"name": c.ident.to_string(), "ty": toks(&c.ty), "init": rexpr(&c.expr)}));
                }
            }
            json!({"ok": out})
        }
    }
}

fn one(line: &str) -> Value {
    let v: Value = match serde_json::from_str(line) {
        Ok(v) => v,
        Err(e) => return json!({"parse": "bad-input", "message": e.to_string()}),
    };
    let src = v["src"].as_str().unwrap_or("").to_string();
    let want_emit = v["emit"].as_bool().unwrap_or(false);
    let toks = match lexer::lex(&src) {
        Ok(t) => t,
        Err(e) => return json!({"parse": "lex", "errors": errs(&e)}),
    };
    let prog = match parser::parse(&toks) {
        Ok(p) => p,
        Err(e) => return json!({"parse": "parse", "errors": errs(&e)}),
    };
    let mut tc = typechecker::TypeChecker::new();
    let res = tc.check_program(&prog);
    let info = tc.type_info().clone();
    let mut consts = vec![];
    for d in &prog.declarations {
        if let Declaration::Const(c) = &d.node {
            let ty = info.expr_type(c.value.span).map(ty_json).unwrap_or(Value::Null);
            let kind = match info.const_kinds.get(&c.name).map(|k| format!("{:?}", k)) {
                Some(k) if k == "RustNative" => json!("native"),
                Some(k) if k == "Frozen" => json!("frozen"),
                Some(k) => json!(k),
                None => Value::Null,
            };
            let value = info.const_values.get(&c.name).map(val_json).unwrap_or(Value::Null);
            consts.push(json!({"name": c.name, "ty": ty, "kind": kind, "value": value, "tree": sx(&c.value)}));
        }
    }
    let e = match res {
        Ok(()) => vec![],
        Err(es) => errs(&es),
    };
    // thorough tier: write the generated cargo project (what `incan build` writes) into a directory
    if let Some(dir) = v["project"].as_str() {
        let name = v["name"].as_str().unwrap_or("c06batch");
        return match incan::IrCodegen::new().try_generate(&prog) {
            Ok(rust) => match incan::ProjectGenerator::new(dir, name, true).generate(&rust) {
                Ok(()) => json!({"parse": "ok", "project": "written", "errors": e}),
                Err(e) => json!({"parse": "ok", "project": format!("io error: {}", e)}),
            },
            Err(err) => json!({"parse": "ok", "project": format!("codegen: {}", err)}),
        };
    }
    let emit = if want_emit {
        match incan::IrCodegen::new().try_generate(&prog) {
            Ok(rust) => emitted_consts(&rust),
            Err(err) => json!({"err": err.to_string()}),
        }
    } else {
        Value::Null
    };
    json!({"parse": "ok", "consts": consts, "errors": e, "emit": emit})
}

pub fn run(_args: &[String]) {
    each_line(|line| match catch(|| one(line)) {
        Ok(v) => v.to_string(),
        Err(msg) => json!({"parse": "panic", "message": msg}).to_string(),
    });
}
