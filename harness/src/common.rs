//! Helpers shared by the per-property runners.
use std::io::{self, BufRead, Write};
use std::panic::{self, AssertUnwindSafe};

pub fn silence_panics() {
    panic::set_hook(Box::new(|_| {}));
}

/// Run `f`, returning Err(panic message) if it panicked.
pub fn catch<T>(f: impl FnOnce() -> T) -> Result<T, String> {
    match panic::catch_unwind(AssertUnwindSafe(f)) {
        Ok(v) => Ok(v),
        Err(e) => {
            if let Some(s) = e.downcast_ref::<String>() {
                Err(s.clone())
            } else if let Some(s) = e.downcast_ref::<&str>() {
                Err((*s).to_string())
            } else {
                Err("<non-string panic>".to_string())
            }
        }
    }
}

/// Apply `f` to every stdin line, writing one output line per input line.
pub fn each_line(mut f: impl FnMut(&str) -> String) {
    let stdin = io::stdin();
    let stdout = io::stdout();
    let mut out = io::BufWriter::new(stdout.lock());
    for line in stdin.lock().lines() {
        let Ok(line) = line else { break };
        if line.is_empty() {
            continue;
        }
        let r = f(&line);
        let _ = writeln!(out, "{}", r.replace('\n', "\\n"));
    }
    let _ = out.flush();
}

pub fn opt_i64(s: &str) -> Option<i64> {
    if s == "N" { None } else { s.parse().ok() }
}

/// Like `each_line`, but a watchdog ends the process when one case runs longer than `limit_ms`:
/// it prints `TIMEOUT` as that case's result line and exits 0; the driver resumes after it.
pub fn each_line_watchdog(limit_ms: u64, mut f: impl FnMut(&str) -> String) {
    use std::sync::atomic::{AtomicU64, Ordering};
    use std::sync::Arc;
    use std::time::{Duration, Instant};
    let started = Arc::new(AtomicU64::new(0)); // 0 = idle, else ms since t0 (+1)
    let t0 = Instant::now();
    {
        let started = started.clone();
        std::thread::spawn(move || loop {
            std::thread::sleep(Duration::from_millis(50));
            let s = started.load(Ordering::SeqCst);
            if s != 0 && (t0.elapsed().as_millis() as u64 + 1).saturating_sub(s) > limit_ms {
                println!("TIMEOUT");
                let _ = io::stdout().flush();
                std::process::exit(0);
            }
        });
    }
    let stdin = io::stdin();
    for line in stdin.lock().lines() {
        let Ok(line) = line else { break };
        if line.is_empty() {
            continue;
        }
        started.store(t0.elapsed().as_millis() as u64 + 1, Ordering::SeqCst);
        let r = f(&line);
        started.store(0, Ordering::SeqCst);
        println!("{}", r.replace('\n', "\\n"));
    }
    let _ = io::stdout().flush();
}
