//! Helpers shared by the per-property runners.
use std::io::{self, BufRead, Write};
use std::panic::{self, AssertUnwindSafe};

pub fn silence_panics() {
    panic::set_hook(Box::new(|_| {}));
}

/// Run `f`, returning Err(panic message) if it panicked.
pub fn catch<T>(f: impl FnOnce() -> T) -> Result<T, String> {
    match panic::catch_unwind(AssertUnwindSafe(f)) {
        Ok(v) => Ok(v),
        Err(e) => {
            if let Some(s) = e.downcast_ref::<String>() {
                Err(s.clone())
            } else if let Some(s) = e.downcast_ref::<&str>() {
                Err((*s).to_string())
            } else {
                Err("<non-string panic>".to_string())
            }
        }
    }
}

/// Apply `f` to every stdin line, writing one output line per input line.
pub fn each_line(mut f: impl FnMut(&str) -> String) {
    let stdin = io::stdin();
    let stdout = io::stdout();
    let mut out = io::BufWriter::new(stdout.lock());
    for line in stdin.lock().lines() {
        let Ok(line) = line else { break };
        if line.is_empty() {
            continue;
        }
        let r = f(&line);
        let _ = writeln!(out, "{}", r.replace('\n', "\\n"));
    }
    let _ = out.flush();
}

pub fn opt_i64(s: &str) -> Option<i64> {
    if s == "N" { None } else { s.parse().ok() }
}
